//! C19: principal-axis decomposition (SvdBasis2/3), two-vector frame constructors, Plane3.
//! Inputs are built from exact integers (lattice vectors, power-of-two scales, integer weights,
//! rigid motions as integer matrix / divisor); outputs are projected to bounded integers.
//! No judging here.  Derived observations (computed in f64 from API outputs only): the second
//! moments of the basis coordinates returned by `point_to_basis`, squares of singular values,
//! residuals `iso * centre`, `plane.signed_distance(project(q))`.
use crate::util::*;
use crate::State;
use engeom::common::svd_basis::{iso3_from_xyo, SvdBasis};
use engeom::geom3::IsoExtensions3;
use engeom::{Iso2, Iso3, Plane3, Point2, Point3, SurfacePoint3, UnitVec3, Vector2, Vector3};
use parry3d_f64::na::{Matrix3, Point, Rotation3, Translation3, UnitQuaternion};
use serde_json::{json, Value};
use std::panic::{catch_unwind, AssertUnwindSafe};

const QB: f64 = 16384.0;
const QC: f64 = 65536.0;
const QF: f64 = 16777216.0;
const QG: f64 = 4096.0;
const QS: f64 = 1024.0;

fn p2(k: i64) -> f64 {
    (2.0f64).powi(k as i32)
}
fn v3(v: &[i64], s: f64) -> Vector3 {
    Vector3::new(v[0] as f64 * s, v[1] as f64 * s, v[2] as f64 * s)
}
fn pt3(v: &[i64], s: f64) -> Point3 {
    Point3::new(v[0] as f64 * s, v[1] as f64 * s, v[2] as f64 * s)
}
fn qv3(q: &mut Q, v: &Vector3, scale: f64) -> Vec<i64> {
    vec![q.q(v.x, scale), q.q(v.y, scale), q.q(v.z, scale)]
}

/// rigid motion x -> (R x)/h + t*s from the integer description of the case
fn motion(rec: &Value, s: f64) -> Iso3 {
    let r = gvvi(rec, "R");
    let h = gi(rec, "h") as f64;
    let t = gvi(rec, "t");
    let m = Matrix3::new(
        r[0][0] as f64 / h, r[0][1] as f64 / h, r[0][2] as f64 / h,
        r[1][0] as f64 / h, r[1][1] as f64 / h, r[1][2] as f64 / h,
        r[2][0] as f64 / h, r[2][1] as f64 / h, r[2][2] as f64 / h,
    );
    let rot = Rotation3::from_matrix_unchecked(m);
    Iso3::from_parts(Translation3::from(v3(&t, s)), UnitQuaternion::from_rotation_matrix(&rot))
}

/// images of the unit axes under the rotation part of an isometry
fn axes(q: &mut Q, iso: &Iso3) -> Vec<Vec<i64>> {
    vec![
        qv3(q, &(iso.rotation * Vector3::x()), QB),
        qv3(q, &(iso.rotation * Vector3::y()), QB),
        qv3(q, &(iso.rotation * Vector3::z()), QB),
    ]
}

fn frame_obs(r: engeom::Result<Iso3>, so: f64) -> Value {
    match r {
        Err(_) => json!({"ok": false, "finite": true, "panic": false, "r": [[0, 0, 0], [0, 0, 0], [0, 0, 0]], "t": [0, 0, 0]}),
        Ok(iso) => {
            let mut q = Q::new();
            let r = axes(&mut q, &iso);
            let t = iso * Point3::origin();
            let tq = qv3(&mut q, &t.coords, QC / so);
            json!({"ok": true, "finite": q.finite, "panic": false, "r": r, "t": tq})
        }
    }
}

fn exec_frame(rec: &Value) -> Value {
    let a = gvi(rec, "a");
    let o = gvi(rec, "o");
    let so = p2(gi(rec, "so"));
    let va = v3(&a, p2(gi(rec, "sa")));
    let sb = p2(gi(rec, "sb"));
    let org = if gb(rec, "uo") { Some(pt3(&o, so)) } else { None };
    let mut all = vec![];
    for b in gvvi(rec, "bs") {
        let vb = v3(&b, sb);
        let mut res = vec![];
        for c in 0..6 {
            let r = catch_unwind(AssertUnwindSafe(|| {
                let it = match c {
                    0 => Iso3::try_from_basis_xy(&va, &vb, org),
                    1 => Iso3::try_from_basis_xz(&va, &vb, org),
                    2 => Iso3::try_from_basis_yz(&va, &vb, org),
                    3 => Iso3::try_from_basis_yx(&va, &vb, org),
                    4 => Iso3::try_from_basis_zx(&va, &vb, org),
                    _ => Iso3::try_from_basis_zy(&va, &vb, org),
                };
                frame_obs(it, so)
            }));
            res.push(match r {
                Ok(v) => v,
                Err(_) => json!({"ok": false, "finite": true, "panic": true, "r": [[0, 0, 0], [0, 0, 0], [0, 0, 0]], "t": [0, 0, 0]}),
            });
        }
        all.push(res);
    }
    json!({"res": all})
}

/// iso3_from_xyo takes unit vectors: the case generator only emits non-zero arguments
fn exec_xyo(rec: &Value) -> Value {
    let a = gvi(rec, "a");
    let o = gvi(rec, "o");
    let so = p2(gi(rec, "so"));
    let sb = p2(gi(rec, "sb"));
    let x0 = UnitVec3::new_normalize(v3(&a, p2(gi(rec, "sa"))));
    let op = pt3(&o, so);
    let mut all = vec![];
    for b in gvvi(rec, "bs") {
        let y = UnitVec3::new_normalize(v3(&b, sb));
        let r = catch_unwind(AssertUnwindSafe(|| {
            let iso = iso3_from_xyo(&x0, &y, &op);
            let mut q = Q::new();
            let r = axes(&mut q, &iso);
            let io = iso * op;
            let ioq = qv3(&mut q, &io.coords, QF / so);
            let ix = qv3(&mut q, &(iso * x0.into_inner()), QB);
            let iy = qv3(&mut q, &(iso * y.into_inner()), QB);
            json!({"panic": false, "finite": q.finite, "r": r, "io": ioq, "ix": ix, "iy": iy})
        }));
        all.push(match r {
            Ok(v) => v,
            Err(_) => json!({"panic": true, "finite": true, "r": [[0, 0, 0], [0, 0, 0], [0, 0, 0]], "io": [0, 0, 0], "ix": [0, 0, 0], "iy": [0, 0, 0]}),
        });
    }
    json!({"res": all})
}

fn exec_plane(rec: &Value) -> Value {
    let s = p2(gi(rec, "sc"));
    let kind = gs(rec, "kind");
    // `off`: every point of the record is translated by that lattice vector (planes through small triangles far from the origin);
    // the offset of the plane and every reported point are translated back, distances and directions are not affected
    let off = match rec.get("off") { Some(_) => v3(&gvi(rec, "off"), s), None => v3(&[0, 0, 0], 1.0) };
    let pt3 = |v: &[i64], s: f64| -> Point3 { pt3(v, s) + off };
    let defining: Vec<Point3>;
    let built = match kind {
        "3pt" => {
            let pts = gvvi(rec, "pts");
            let (p1, p2_, p3) = (pt3(&pts[0], s), pt3(&pts[1], s), pt3(&pts[2], s));
            defining = vec![p1, p2_, p3];
            catch_unwind(AssertUnwindSafe(|| Plane3::from((&p1, &p2_, &p3))))
        }
        "pn" => {
            let p = pt3(&gvi(rec, "p"), s);
            let n = UnitVec3::new_normalize(v3(&gvi(rec, "nv"), 1.0));
            defining = vec![p];
            catch_unwind(AssertUnwindSafe(|| Plane3::from((&n, &p))))
        }
        _ => {
            let p = pt3(&gvi(rec, "p"), s);
            let n = UnitVec3::new_normalize(v3(&gvi(rec, "nv"), 1.0));
            defining = vec![p];
            catch_unwind(AssertUnwindSafe(|| Plane3::from(&SurfacePoint3::new(p, n))))
        }
    };
    let plane = match built {
        Ok(p) => p,
        Err(_) => return json!({"cpanic": true}),
    };
    let mut q = Q::new();
    let n = qv3(&mut q, &plane.normal.into_inner(), QB);
    let d = q.q((plane.d - plane.normal.dot(&off)) / s, QB);
    let sdp: Vec<i64> = defining.iter().map(|p| q.q(plane.signed_distance_to_point(p) / s, QF)).collect();
    let prp: Vec<Vec<i64>> = defining.iter().map(|p| qv3(&mut q, &(plane.project_point(p) - p), QF / s)).collect();
    let qs: Vec<Point3> = gvvi(rec, "qs").iter().map(|v| pt3(v, s)).collect();
    let dirs: Vec<UnitVec3> = gvvi(rec, "dirs").iter().map(|v| UnitVec3::new_normalize(v3(v, 1.0))).collect();
    let inv = plane.inverted_normal();
    let mv = motion(rec, s);
    let moved = plane.transform_by(&mv);
    let (mut sd, mut dist, mut proj, mut sdproj, mut pp, mut isd, mut tsd, mut ixs, mut ixr) =
        (vec![], vec![], vec![], vec![], vec![], vec![], vec![], vec![], vec![]);
    for p in &qs {
        sd.push(q.q(plane.signed_distance_to_point(p) / s, QB));
        dist.push(q.q(plane.distance_to_point(p) / s, QB));
        let pr = plane.project_point(p);
        proj.push(qv3(&mut q, &(pr.coords - off), QC / s));
        sdproj.push(q.q(plane.signed_distance_to_point(&pr) / s, QF));
        pp.push(qv3(&mut q, &(plane.project_point(&pr) - pr), QF / s));
        isd.push(q.q(inv.signed_distance_to_point(p) / s, QB));
        tsd.push(q.q(moved.signed_distance_to_point(&(mv * p)) / s, QB));
        let mut some = vec![];
        let mut resid = vec![];
        for dv in &dirs {
            let sp = SurfacePoint3::new(*p, *dv);
            match plane.intersection_distance(&sp) {
                None => {
                    some.push(false);
                    resid.push(0);
                }
                Some(t) => {
                    some.push(true);
                    // residual of the hit point: must lie on the plane
                    let hit = p + dv.into_inner() * t;
                    let mut qq = Q::new();
                    let rr = qq.q(plane.signed_distance_to_point(&hit) / s, QF);
                    resid.push(if qq.finite { rr } else { IMAX });
                }
            }
        }
        ixs.push(some);
        ixr.push(resid);
    }
    let inn = qv3(&mut q, &inv.normal.into_inner(), QB);
    let id = q.q((inv.d - inv.normal.dot(&off)) / s, QB);
    json!({"cpanic": false, "finite": q.finite, "n": n, "d": d, "sdp": sdp, "prp": prp, "sd": sd, "dist": dist, "proj": proj,
           "sdproj": sdproj, "pp": pp, "isd": isd, "inn": inn, "id": id, "tsd": tsd, "ixs": ixs, "ixr": ixr})
}

fn pad3<const D: usize>(v: &[f64]) -> [f64; 3] {
    let mut o = [0.0; 3];
    for k in 0..D {
        o[k] = v[k];
    }
    o
}

/// short form: centre, basis, singular values, rank (for the moved / re-weighted decompositions)
fn svd_short<const D: usize>(b: &SvdBasis<D>, s: f64) -> Value {
    let mut q = Q::new();
    let c = pad3::<D>(b.center.coords.as_slice());
    let cq: Vec<i64> = c.iter().map(|v| q.q(*v / s, QC)).collect();
    let basis: Vec<Vec<i64>> = (0..D).map(|k| pad3::<D>(b.basis[k].as_slice()).iter().map(|v| q.q(*v, QB)).collect()).collect();
    let sv: Vec<i64> = b.sv.iter().map(|v| q.q(*v / s, QS)).collect();
    json!({"c": cq, "basis": basis, "sv": sv, "rank": b.rank(1e-6 * s), "rank9": b.rank(1e-9 * s), "n": b.n, "finite": q.finite})
}

fn svd_full<const D: usize>(b: &SvdBasis<D>, pts: &[Point<f64, D>], w: Option<&[f64]>, qs: &[Point<f64, D>], s: f64) -> Value {
    let mut o = svd_short(b, s);
    let mut q = Q::new();
    let sv2: Vec<i64> = b.sv.iter().map(|v| q.q(v * v / (s * s), QG)).collect();
    let var: Vec<i64> = b.basis_variances().iter().map(|v| q.q(*v / (s * s), QG)).collect();
    let sd: Vec<i64> = b.basis_stdevs().iter().map(|v| q.q(*v / s, QS)).collect();
    let tbf: Vec<Point<f64, D>> = pts.iter().map(|p| b.point_to_basis(p)).collect();
    let tb: Vec<Vec<i64>> = tbf.iter().map(|t| t.coords.iter().map(|v| q.q(*v / s, QB)).collect()).collect();
    let rt: Vec<Vec<i64>> = pts.iter().zip(&tbf).map(|(p, t)| {
        let back = b.point_from_basis(t);
        pad3::<D>((back - p).as_slice()).iter().map(|v| q.q(*v / s, QF)).collect()
    }).collect();
    let rt2: Vec<Vec<i64>> = qs.iter().map(|p| {
        let back = b.point_to_basis(&b.point_from_basis(p));
        pad3::<D>((back - p).as_slice()).iter().map(|v| q.q(*v / s, QF)).collect()
    }).collect();
    // vec_to_basis of the (unscaled) test vectors
    let vtb: Vec<Vec<i64>> = qs.iter().map(|p| {
        let v = p.coords / s;
        b.vec_to_basis(&v).iter().map(|x| q.q(*x, QB)).collect()
    }).collect();
    // second moments of the basis coordinates, weighted by w^a (a = 0, 1, 2)
    let gram = |a: i32, q: &mut Q| -> Vec<Vec<i64>> {
        (0..D).map(|j| (0..D).map(|k| {
            let mut acc = 0.0;
            for (i, t) in tbf.iter().enumerate() {
                let g = match w { Some(w) => w[i].powi(a), None => 1.0 };
                acc += g * t[j] * t[k];
            }
            q.q(acc / (s * s), QG)
        }).collect()).collect()
    };
    let g0 = gram(0, &mut q);
    let (g1, g2) = if w.is_some() { (gram(1, &mut q), gram(2, &mut q)) } else { (vec![], vec![]) };
    let lg: Vec<i64> = pad3::<D>(b.largest().into_inner().as_slice()).iter().map(|v| q.q(*v, QB)).collect();
    let sm: Vec<i64> = pad3::<D>(b.smallest().into_inner().as_slice()).iter().map(|v| q.q(*v, QB)).collect();
    let m = o.as_object_mut().unwrap();
    let fin = m["finite"].as_bool().unwrap() && q.finite;
    m.insert("finite".into(), json!(fin));
    m.insert("sv2".into(), json!(sv2));
    m.insert("var".into(), json!(var));
    m.insert("sd".into(), json!(sd));
    m.insert("tb".into(), json!(tb));
    m.insert("rt".into(), json!(rt));
    m.insert("rt2".into(), json!(rt2));
    m.insert("vtb".into(), json!(vtb));
    m.insert("g0".into(), json!(g0));
    m.insert("g1".into(), json!(g1));
    m.insert("g2".into(), json!(g2));
    m.insert("lg".into(), json!(lg));
    m.insert("sm".into(), json!(sm));
    o
}

fn basis_finite<const D: usize>(b: &SvdBasis<D>) -> bool {
    b.basis.iter().all(|v| v.iter().all(|x| x.is_finite())) && b.center.coords.iter().all(|x| x.is_finite())
}

fn exec_svd(rec: &Value) -> Value {
    let s = p2(gi(rec, "sc"));
    let dim = gi(rec, "dim");
    let ipts = gvvi(rec, "pts");
    let wt: Vec<f64> = gvi(rec, "wt").iter().map(|v| *v as f64).collect();
    let w2: Vec<f64> = wt.iter().map(|v| v * 2.0).collect();
    let weighted = !wt.is_empty();
    let w = if weighted { Some(&wt[..]) } else { None };
    let iqs = gvvi(rec, "qs");
    let mv = motion(rec, s);
    if dim == 3 {
        let pts: Vec<Point3> = ipts.iter().map(|v| pt3(v, s)).collect();
        let qs: Vec<Point3> = iqs.iter().map(|v| pt3(v, s)).collect();
        let b = SvdBasis::<3>::from_points(&pts, w);
        let mut o = svd_full(&b, &pts, w, &qs, s);
        // the conversion iterates on the basis matrix: only exercised on finite bases (a non-finite basis is
        // reported through `finite` and would make the conversion spin)
        if basis_finite(&b) {
            let mut q = Q::new();
            let iso = Iso3::from(&b);
            let r = axes(&mut q, &iso);
            let c0 = qv3(&mut q, &(iso * b.center).coords, QF / s);
            let ip: Vec<Vec<i64>> = pts.iter().map(|p| qv3(&mut q, &(iso * p).coords, QB / s)).collect();
            o.as_object_mut().unwrap().insert("iso".into(), json!({"na": false, "r": r, "c0": c0, "ip": ip, "finite": q.finite}));
        } else {
            o.as_object_mut().unwrap().insert("iso".into(), json!({"na": true}));
        }
        let moved: Vec<Point3> = pts.iter().map(|p| mv * p).collect();
        let bm = SvdBasis::<3>::from_points(&moved, w);
        let d = if weighted { svd_short(&SvdBasis::<3>::from_points(&pts, Some(&w2[..])), s) } else { json!({"na": true}) };
        json!({"b": o, "m": svd_short(&bm, s), "d": d})
    } else {
        let pts: Vec<Point2> = ipts.iter().map(|v| Point2::new(v[0] as f64 * s, v[1] as f64 * s)).collect();
        let qs: Vec<Point2> = iqs.iter().map(|v| Point2::new(v[0] as f64 * s, v[1] as f64 * s)).collect();
        let b = SvdBasis::<2>::from_points(&pts, w);
        let mut o = svd_full(&b, &pts, w, &qs, s);
        if basis_finite(&b) {
            let mut q = Q::new();
            let iso = Iso2::from(&b);
            let ex = iso.rotation * Vector2::x();
            let ey = iso.rotation * Vector2::y();
            let r = vec![vec![q.q(ex.x, QB), q.q(ex.y, QB), 0], vec![q.q(ey.x, QB), q.q(ey.y, QB), 0], vec![0, 0, QB as i64]];
            let ic = iso * b.center;
            let c0 = vec![q.q(ic.x / s, QF), q.q(ic.y / s, QF), 0];
            let ip: Vec<Vec<i64>> = pts.iter().map(|p| { let t = iso * p; vec![q.q(t.x / s, QB), q.q(t.y / s, QB), 0] }).collect();
            o.as_object_mut().unwrap().insert("iso".into(), json!({"na": false, "r": r, "c0": c0, "ip": ip, "finite": q.finite}));
        } else {
            o.as_object_mut().unwrap().insert("iso".into(), json!({"na": true}));
        }
        // planar motion: rotation about z and in-plane translation of the case's motion
        let moved: Vec<Point2> = pts.iter().map(|p| { let t = mv * Point3::new(p.x, p.y, 0.0); Point2::new(t.x, t.y) }).collect();
        let bm = SvdBasis::<2>::from_points(&moved, w);
        let d = if weighted { svd_short(&SvdBasis::<2>::from_points(&pts, Some(&w2[..])), s) } else { json!({"na": true}) };
        json!({"b": o, "m": svd_short(&bm, s), "d": d})
    }
}

pub fn exec(rec: &Value, _st: &mut State) -> Value {
    match gs(rec, "op") {
        "frame" => exec_frame(rec),
        "xyo" => exec_xyo(rec),
        "plane" => exec_plane(rec),
        "svd" => exec_svd(rec),
        // order of the singular values only (exact float comparison), for point sets too large for the exact clauses
        "svdorder" => {
            let s = p2(gi(rec, "sc"));
            let pts: Vec<Point3> = gvvi(rec, "pts").iter().map(|v| pt3(v, s)).collect();
            let b = SvdBasis::<3>::from_points(&pts, None);
            let fin = b.sv.iter().all(|v| v.is_finite());
            let ordered = b.sv[0] >= b.sv[1] && b.sv[1] >= b.sv[2];
            // the first axis is the direction of largest spread: its spread (sum of squared projections) is not exceeded by the others
            let spread = |k: usize| -> f64 { pts.iter().map(|p| { let d = (p - b.center).dot(&b.basis[k]); d * d }).sum::<f64>() };
            let (s0, s1, s2) = (spread(0), spread(1), spread(2));
            let tol = 1.0e-9 * (s0 + s1 + s2);
            json!({"finite": fin, "ordered": ordered, "largest_first": s0 + tol >= s1 && s1 + tol >= s2})
        }
        _ => json!({"unknown_op": true}),
    }
}
