//! C13: plane sections and splits of meshes (always run as watchdog records: the parry dependency may not terminate)
use crate::util::*;
use crate::State;
use engeom::common::SplitResult;
use engeom::geom3::{Iso3, Mesh, Plane3, Point3, UnitVec3, Vector3};
use parry3d_f64::na::{Matrix3, Rotation3, Translation3, UnitQuaternion};
use serde_json::{json, Value};

const QX: f64 = 4096.0;

fn iso3(t: &Value) -> Iso3 {
    let m = gvvi(t, "M");
    let h = gi(t, "H") as f64;
    let tr = gvi(t, "t");
    let mat = Matrix3::new(
        m[0][0] as f64 / h, m[0][1] as f64 / h, m[0][2] as f64 / h,
        m[1][0] as f64 / h, m[1][1] as f64 / h, m[1][2] as f64 / h,
        m[2][0] as f64 / h, m[2][1] as f64 / h, m[2][2] as f64 / h);
    let rot = UnitQuaternion::from_rotation_matrix(&Rotation3::from_matrix_unchecked(mat));
    Iso3::from_parts(Translation3::new(tr[0] as f64, tr[1] as f64, tr[2] as f64), rot)
}
fn qp3s(q: &mut Q, p: &Point3, s: f64) -> Vec<i64> { vec![q.q(p.x / s, QX), q.q(p.y / s, QX), q.q(p.z / s, QX)] }
fn area(m: &Mesh) -> f64 { m.tri_mesh().triangles().map(|t| t.area()).sum() }

pub fn exec(rec: &Value, _st: &mut State) -> Value {
    let op = gs(rec, "op");
    let mut q = Q::new();
    // optional power-of-two scale of the whole scene (mesh, plane, motion); observations are reported in lattice units
    let s = (2.0f64).powi(gi_or(rec, "sc", 0) as i32);
    let verts: Vec<Point3> = gvvi(rec, "vpos").iter().map(|p| Point3::new(p[0] as f64 * s, p[1] as f64 * s, p[2] as f64 * s)).collect();
    let faces: Vec<[u32; 3]> = gvvi(rec, "faces").iter().map(|f| [f[0] as u32, f[1] as u32, f[2] as u32]).collect();
    // `solid`: the mesh is built with the solid flag (1) or is the convex hull of the described mesh (2; only for convex inputs)
    let mut mesh = match gi_or(rec, "solid", 0) {
        0 => Mesh::new(verts, faces, false),
        1 => Mesh::new(verts, faces, true),
        _ => Mesh::new(verts, faces, false).convex_hull(),
    };
    let n = gvi(rec, "n");
    let nv = Vector3::new(n[0] as f64, n[1] as f64, n[2] as f64);
    let d = (gi(rec, "dn") as f64 / gi(rec, "dd") as f64) * s / nv.norm();
    let mut plane = Plane3::new(UnitVec3::new_normalize(nv), d);
    let mut t = iso3(&rec["T"]);
    t.translation.vector *= s;
    // `far`: after the motion T the whole scene is carried that many lattice units further from the origin; reported section
    // points are carried back before they are quantised (the judge sees the scene moved by T only)
    let far = match rec.get("far") { Some(_) => { let f = gvi(rec, "far"); Vector3::new(f[0] as f64 * s, f[1] as f64 * s, f[2] as f64 * s) } None => Vector3::zeros() };
    t.translation.vector += far;
    if gi_or(rec, "side", 0) != 1 {
        mesh.transform(&t);
        plane = plane.transform_by(&t);
    }
    match op {
        "section" => {
            let stol = match gi_or(rec, "stol16", 0) { 0 => None, k => Some(k as f64 / 16.0 * s) };
            match mesh.section(&plane, stol) {
                Err(_) => json!({"ok": false}),
                Ok(curves) => {
                    // `side` = 1: the section is taken in the mesh's own frame and the resulting CURVES are moved by T
                    // (Curve3::transformed_by) - the same curves must come out as when mesh and plane are moved first
                    let curves = if gi_or(rec, "side", 0) == 1 { curves.iter().map(|c| c.transformed_by(&t)).collect::<Vec<_>>() } else { curves };
                    let cs: Vec<Vec<Vec<i64>>> = curves.iter().map(|c| c.points().iter().map(|p| qp3s(&mut q, &(p - far), s)).collect()).collect();
                    let lens: Vec<i64> = curves.iter().map(|c| q.q(c.length() / s, QX)).collect();
                    // derived observation: (reported length - length of the polygon through the reported vertices) / length * 2^30
                    let lenres: Vec<i64> = curves.iter().map(|c| {
                        let span: f64 = c.points().windows(2).map(|w| (w[1] - w[0]).norm()).sum();
                        if span > 0.0 { q.q(((c.length() - span) / span * 1073741824.0).clamp(-1.0e9, 1.0e9), 1.0) } else { 0 }
                    }).collect();
                    json!({"ok": true, "curves": cs, "lens": lens, "lenres": lenres, "finite": q.finite})
                }
            }
        }
        "split" => {
            let total = area(&mesh);
            match mesh.split(&plane) {
                SplitResult::Negative => json!({"kind": "negative", "a": [], "b": [], "area_a": 0, "area_b": 0, "area": q.q(total / (s * s), QX), "finite": q.finite}),
                SplitResult::Positive => json!({"kind": "positive", "a": [], "b": [], "area_a": 0, "area_b": 0, "area": q.q(total / (s * s), QX), "finite": q.finite}),
                SplitResult::Pair(a, b) => {
                    // un-move the parts so that the judge works in the mesh's own frame (exact inverse by nalgebra)
                    let ti = t.inverse();
                    let va: Vec<Vec<i64>> = a.vertices().iter().map(|p| qp3s(&mut q, &(ti * p), s)).collect();
                    let vb: Vec<Vec<i64>> = b.vertices().iter().map(|p| qp3s(&mut q, &(ti * p), s)).collect();
                    json!({"kind": "pair", "a": va, "b": vb, "area_a": q.q(area(&a) / (s * s), QX), "area_b": q.q(area(&b) / (s * s), QX), "area": q.q(total / (s * s), QX), "finite": q.finite})
                }
            }
        }
        _ => json!({"unknown_op": true}),
    }
}
