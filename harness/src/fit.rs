//! C09: least-squares polynomial fits (Polynomial<K>::least_squares, Line1, Series1::best_fit_line) and circle
//! constructions from data (Circle2::{from_3_points, fitting_circle, ransac}).
//! Projection only: inputs are built from exact integers (times a power-of-two scale), results are quantised.
//! Derived observations (orthogonality defect, weighted sum of squares, radial residuals, gradient of the summed
//! squared radial residuals) are evaluated here with plain formulas on the *returned* values; they are never
//! compared with anything in Rust.
use crate::util::*;
use crate::State;
use engeom::common::BestFit;
use engeom::func1::{Func1, Line1, Polynomial, Series1};
use engeom::geom2::{Circle2, Point2};
use serde_json::{json, Value};

const QC: f64 = 1.0e6; // polynomial coefficients (after undoing the abscissa scale)
const QO: f64 = 1.0e9; // relative orthogonality defect  sum(w r x^k) / sum(w (|y|+|p|) |x|^k)
const QS: f64 = 1.0e3; // weighted sum of squared residuals, polynomial values
const QP: f64 = 1.0e4; // circle centre / radius, per lattice unit
const QR: f64 = 1.0e6; // radial residual of a defining point, per lattice unit
const QG: f64 = 1.0e9; // gradient of sum (|p-c|-r)^2 per point and lattice unit
const QT: f64 = 1.0e4; // distance to the perimeter (ransac inlier band), per lattice unit

fn fit_k<const K: usize>(xs: &[f64], ys: &[f64], ws: Option<&[f64]>) -> (Vec<f64>, Vec<f64>) {
    let p = Polynomial::<K>::least_squares(xs, ys, ws);
    let f = xs.iter().map(|x| p.f(*x)).collect();
    (p.c.to_vec(), f)
}

fn fit(k: i64, xs: &[f64], ys: &[f64], ws: Option<&[f64]>) -> (Vec<f64>, Vec<f64>) {
    match k {
        2 => fit_k::<2>(xs, ys, ws),
        3 => fit_k::<3>(xs, ys, ws),
        4 => fit_k::<4>(xs, ys, ws),
        5 => fit_k::<5>(xs, ys, ws),
        6 => fit_k::<6>(xs, ys, ws),
        _ => panic!("unsupported K"),
    }
}

fn horner(c: &[f64], x: f64) -> f64 {
    c.iter().rev().fold(0.0, |a, ck| a * x + ck)
}
fn horner_abs(c: &[f64], x: f64) -> f64 {
    c.iter().rev().fold(0.0, |a, ck| a * x.abs() + ck.abs())
}

fn pt(v: &[i64], s: f64) -> Point2 {
    Point2::new(v[0] as f64 * s, v[1] as f64 * s)
}

pub fn exec(rec: &Value, _st: &mut State) -> Value {
    let op = gs(rec, "op");
    let mut q = Q::new();
    match op {
        // ---------------------------------------------------------------- polynomial least squares
        "poly" => {
            let k = gi(rec, "K");
            let sx = gi_or(rec, "sx", 0);
            let fx = (2.0f64).powi(sx as i32);
            let xs: Vec<f64> = gvi(rec, "xs").iter().map(|v| *v as f64 * fx).collect();
            let wsv: Vec<f64> = gvi(rec, "ws").iter().map(|v| *v as f64).collect();
            let ws: Option<&[f64]> = if gb(rec, "w") { Some(&wsv) } else { None };
            let mut fits = vec![];
            for ysi in gvvi(rec, "ys") {
                let ys: Vec<f64> = ysi.iter().map(|v| *v as f64).collect();
                let (c, f) = fit(k, &xs, &ys, ws);
                let mut qq = Q::new();
                // coefficients with the abscissa scale undone (exact: powers of two)
                let cq: Vec<i64> = c.iter().enumerate().map(|(j, cj)| qq.q(cj * fx.powi(j as i32), QC)).collect();
                // derived: moments of the residual vector against the monomial columns, weighted sum of squares
                let mut orth = vec![];
                for j in 0..c.len() {
                    let mut g = 0.0;
                    let mut nrm = 0.0;
                    for i in 0..xs.len() {
                        let w = if ws.is_some() { wsv[i] } else { 1.0 };
                        let xu = xs[i] / fx; // unscaled (integer) abscissa: keeps the moments well scaled
                        let r = ys[i] - horner(&c, xs[i]);
                        g += w * r * xu.powi(j as i32);
                        nrm += w * (ys[i].abs() + horner_abs(&c, xs[i])) * xu.abs().powi(j as i32);
                    }
                    orth.push(if nrm > 0.0 { qq.q(g / nrm, QO) } else { qq.q(g, QO) });
                }
                let mut sse = 0.0;
                for i in 0..xs.len() {
                    let w = if ws.is_some() { wsv[i] } else { 1.0 };
                    let r = ys[i] - horner(&c, xs[i]);
                    sse += w * r * r;
                }
                let fq: Vec<i64> = f.iter().map(|v| qq.q(*v, QS)).collect();
                fits.push(json!({"c": cq, "orth": orth, "sse": qq.q(sse, QS), "f": fq, "finite": qq.finite}));
            }
            json!({ "fits": fits })
        }
        // ---------------------------------------------------------------- Series1::best_fit_line vs Line1 fit
        "line" => {
            let sx = gi_or(rec, "sx", 0);
            let fx = (2.0f64).powi(sx as i32);
            let xs: Vec<f64> = gvi(rec, "xs").iter().map(|v| *v as f64 * fx).collect();
            let mut res = vec![];
            for ysi in gvvi(rec, "ys") {
                let ys: Vec<f64> = ysi.iter().map(|v| *v as f64).collect();
                let series = Series1::try_new(xs.clone(), ys.clone()).expect("series");
                let sl = series.best_fit_line();
                let pl = Line1::least_squares(&xs, &ys, None);
                let mut qq = Q::new();
                res.push(json!({
                    "s_b": qq.q(sl.b(), QC), "s_m": qq.q(sl.m() * fx, QC), "s_c0": qq.q(sl.c[0], QC), "s_c1": qq.q(sl.c[1] * fx, QC),
                    "p_b": qq.q(pl.b(), QC), "p_m": qq.q(pl.m() * fx, QC), "p_c0": qq.q(pl.c[0], QC), "p_c1": qq.q(pl.c[1] * fx, QC),
                    "finite": qq.finite }));
            }
            json!({ "res": res })
        }
        // ---------------------------------------------------------------- three-point circle
        "c3" => {
            let s = (2.0f64).powi(gi(rec, "sc") as i32);
            let p0v = gvi(rec, "p0");
            let p0 = pt(&p0v, s);
            let mut res = vec![];
            for pr in gvvi(rec, "prs") {
                let p1 = pt(&pr[0..2], s);
                let p2 = pt(&pr[2..4], s);
                let mut qq = Q::new();
                match Circle2::from_3_points(p0, p1, p2) {
                    Ok(c) => {
                        let on: Vec<i64> = [p0, p1, p2].iter().map(|p| {
                            let d = ((p.x - c.x()).powi(2) + (p.y - c.y()).powi(2)).sqrt();
                            qq.q((d - c.r()) / s, QR)
                        }).collect();
                        res.push(json!({"ok": true, "cx": qq.q(c.x() / s, QP), "cy": qq.q(c.y() / s, QP), "r": qq.q(c.r() / s, QP),
                                        "on": on, "finite": qq.finite}));
                    }
                    Err(_) => res.push(json!({"ok": false, "cx": 0, "cy": 0, "r": 0, "on": [0, 0, 0], "finite": true})),
                }
            }
            json!({ "res": res })
        }
        // ---------------------------------------------------------------- Levenberg-Marquardt circle fit
        "cfit" => {
            let s = (2.0f64).powi(gi(rec, "sc") as i32);
            let pts: Vec<Point2> = gvvi(rec, "pts").iter().map(|v| pt(v, s)).collect();
            let sg2 = gi(rec, "sg2");
            let mut res = vec![];
            for g in gvvi(rec, "gs") {
                // a fourth component asks for the mean distance of the points from the guessed centre as radius
                let gr = if g.len() > 3 {
                    let c = Point2::new(g[0] as f64 * s, g[1] as f64 * s);
                    pts.iter().map(|p| (p - c).norm()).sum::<f64>() / pts.len() as f64
                } else { g[2] as f64 * s };
                let guess = Circle2::new(g[0] as f64 * s, g[1] as f64 * s, gr);
                let mode = if sg2 == 0 { BestFit::All } else { BestFit::Gaussian(sg2 as f64 / 2.0) };
                let mut qq = Q::new();
                match Circle2::fitting_circle(&pts, &guess, mode) {
                    Ok(c) => {
                        // derived: gradient of sum (|p-c| - r)^2 over (cx, cy, r), per point and lattice unit
                        let (mut gx, mut gy, mut gr) = (0.0, 0.0, 0.0);
                        for p in &pts {
                            let dx = p.x - c.x();
                            let dy = p.y - c.y();
                            let d = (dx * dx + dy * dy).sqrt();
                            let r = d - c.r();
                            gx += r * dx / d;
                            gy += r * dy / d;
                            gr += r;
                        }
                        let n = pts.len() as f64 * s;
                        // a fit started from its own result (a caller refining a previous answer) must succeed and stay put
                        let (refit_ok, refit_same) = match Circle2::fitting_circle(&pts, &c, match sg2 { 0 => BestFit::All, k => BestFit::Gaussian(k as f64 / 2.0) }) {
                            Ok(c2) => (true, ((c2.x() - c.x()).abs() + (c2.y() - c.y()).abs() + (c2.r() - c.r()).abs()) / s < 1.0e-6 * (1.0 + c.r() / s)),
                            Err(_) => (false, false),
                        };
                        res.push(json!({"ok": true, "cx": qq.q(c.x() / s, QP), "cy": qq.q(c.y() / s, QP), "r": qq.q(c.r() / s, QP),
                                        "g": [qq.q(gx / n, QG), qq.q(gy / n, QG), qq.q(gr / n, QG)], "finite": qq.finite,
                                        "refit_ok": refit_ok, "refit_same": refit_same}));
                    }
                    Err(_) => res.push(json!({"ok": false, "cx": 0, "cy": 0, "r": 0, "g": [0, 0, 0], "finite": true, "refit_ok": true, "refit_same": true})),
                }
            }
            json!({ "res": res })
        }
        // ---------------------------------------------------------------- seeded RANSAC circle
        "ransac" => {
            let s = (2.0f64).powi(gi(rec, "sc") as i32);
            let pts: Vec<Point2> = gvvi(rec, "pts").iter().map(|v| pt(v, s)).collect();
            let tol = gi(rec, "tolN") as f64 / gi(rec, "tolD") as f64 * s;
            let iters = gi(rec, "iters");
            let it = if iters > 0 { Some(iters as usize) } else { None };
            let rmin = gi(rec, "rmin");
            let rmax = gi(rec, "rmax");
            let min_r = if rmin >= 0 { Some(rmin as f64 * s) } else { None };
            let max_r = if rmax >= 0 { Some(rmax as f64 * s) } else { None };
            match Circle2::ransac(&pts, tol, it, min_r, max_r) {
                Ok(c) => {
                    let dq: Vec<i64> = pts.iter().map(|p| {
                        let d = ((p.x - c.x()).powi(2) + (p.y - c.y()).powi(2)).sqrt();
                        q.q((d - c.r()) / s, QT)
                    }).collect();
                    json!({"ok": true, "cx": q.q(c.x() / s, QP), "cy": q.q(c.y() / s, QP), "r": q.q(c.r() / s, QP), "dq": dq, "finite": q.finite})
                }
                Err(_) => json!({"ok": false, "cx": 0, "cy": 0, "r": 0, "dq": [0], "finite": true}),
            }
        }
        _ => json!({"unknown_op": true}),
    }
}
