//! projection helpers: integer case fields -> f64 inputs, f64 outputs -> bounded integers
use serde_json::Value;

pub const IMAX: i64 = 2_000_000_000;

pub fn gi(rec: &Value, k: &str) -> i64 {
    rec[k].as_i64().unwrap_or_else(|| panic!("missing int field {}", k))
}
pub fn gi_or(rec: &Value, k: &str, d: i64) -> i64 {
    rec.get(k).and_then(|v| v.as_i64()).unwrap_or(d)
}
pub fn gb(rec: &Value, k: &str) -> bool {
    rec[k].as_bool().unwrap_or_else(|| panic!("missing bool field {}", k))
}
pub fn gs<'a>(rec: &'a Value, k: &str) -> &'a str {
    rec[k].as_str().unwrap_or_else(|| panic!("missing str field {}", k))
}
pub fn gvi(rec: &Value, k: &str) -> Vec<i64> {
    rec[k].as_array().unwrap_or_else(|| panic!("missing array field {}", k)).iter().map(|v| v.as_i64().unwrap()).collect()
}
pub fn gvvi(rec: &Value, k: &str) -> Vec<Vec<i64>> {
    rec[k].as_array().unwrap_or_else(|| panic!("missing array field {}", k)).iter().map(|v| v.as_array().unwrap().iter().map(|x| x.as_i64().unwrap()).collect()).collect()
}

/// quantise: round(v*q), clamped to the 31-bit range TLC can hold; non-finite -> flag
pub struct Q {
    pub finite: bool,
}
impl Q {
    pub fn new() -> Self {
        Q { finite: true }
    }
    pub fn q(&mut self, v: f64, scale: f64) -> i64 {
        if !v.is_finite() {
            self.finite = false;
            return 0;
        }
        let r = (v * scale).round();
        if r > IMAX as f64 {
            IMAX
        } else if r < -(IMAX as f64) {
            -IMAX
        } else {
            r as i64
        }
    }
    pub fn qv(&mut self, vs: &[f64], scale: f64) -> Vec<i64> {
        vs.iter().map(|v| self.q(*v, scale)).collect()
    }
}

/// three-way comparison as an integer (projection of a float comparison)
pub fn cmp3(a: f64, b: f64) -> i64 {
    if a < b {
        -1
    } else if a > b {
        1
    } else if a == b {
        0
    } else {
        2 // NaN involved
    }
}

/// infinitesimal shift: e=+1 -> next representable above, e=-1 -> below, other -> unchanged
pub fn nudge(v: f64, e: i64) -> f64 {
    match e {
        1 => next_up(v),
        -1 => next_down(v),
        _ => v,
    }
}
pub fn next_up(v: f64) -> f64 {
    if v.is_nan() || v == f64::INFINITY {
        return v;
    }
    if v == 0.0 {
        return f64::from_bits(1);
    }
    let b = v.to_bits();
    if v > 0.0 {
        f64::from_bits(b + 1)
    } else {
        f64::from_bits(b - 1)
    }
}
pub fn next_down(v: f64) -> f64 {
    -next_up(-v)
}
