//! Extension beyond the listed properties: stats::{mean, variance, st_dev, median} and utility::{unflatten, flatten}
use crate::util::*;
use crate::State;
use engeom::stats::{compute_mean, compute_median, compute_st_dev, compute_variance};
use engeom::utility::{flatten_points, unflatten_points};
use serde_json::{json, Value};

const QS: f64 = 256.0;

pub fn exec(rec: &Value, _st: &mut State) -> Value {
    let mut q = Q::new();
    match gs(rec, "op") {
        "stats" => {
            // the data is (v + off) * 2^sc; location results are brought back by / 2^sc - off, spreads by / 2^sc (variance / 4^sc)
            let s = (2.0f64).powi(gi_or(rec, "sc", 0) as i32);
            let off = gi_or(rec, "off", 0) as f64;
            let vals: Vec<f64> = gvi(rec, "vals").iter().map(|v| (*v as f64 + off) * s).collect();
            let opt = |q: &mut Q, r: engeom::Result<f64>, f: &dyn Fn(f64) -> f64| match r {
                Ok(x) => json!({"some": true, "q": q.q(f(x), QS)}),
                Err(_) => json!({"some": false, "q": 0}),
            };
            let mean = opt(&mut q, compute_mean(&vals), &|x| x / s - off);
            let var = opt(&mut q, compute_variance(&vals), &|x| x / (s * s));
            let sd = opt(&mut q, compute_st_dev(&vals), &|x| x / s);
            let median = opt(&mut q, compute_median(&vals), &|x| x / s - off);
            json!({"mean": mean, "var": var, "sd": sd, "median": median, "finite": q.finite})
        }
        "unflatten" => {
            let vals: Vec<f64> = gvi(rec, "vals").iter().map(|v| *v as f64).collect();
            let as_i = |x: f64| x as i64;
            if gi(rec, "d") == 2 {
                match unflatten_points::<2>(&vals) {
                    Err(_) => json!({"ok": false, "points": [], "flat": []}),
                    Ok(p) => json!({"ok": true, "points": p.iter().map(|a| vec![as_i(a.x), as_i(a.y)]).collect::<Vec<_>>(),
                                    "flat": flatten_points(&p).iter().map(|x| as_i(*x)).collect::<Vec<_>>()}),
                }
            } else {
                match unflatten_points::<3>(&vals) {
                    Err(_) => json!({"ok": false, "points": [], "flat": []}),
                    Ok(p) => json!({"ok": true, "points": p.iter().map(|a| vec![as_i(a.x), as_i(a.y), as_i(a.z)]).collect::<Vec<_>>(),
                                    "flat": flatten_points(&p).iter().map(|x| as_i(*x)).collect::<Vec<_>>()}),
                }
            }
        }
        _ => json!({"unknown_op": true}),
    }
}
