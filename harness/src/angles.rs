//! C18: angle normalisation, directed angles, AngleInterval, scalar Interval
use crate::util::*;
use crate::State;
use engeom::common::{angle_in_direction, angle_signed_pi, angle_to_2pi, AngleDir, AngleInterval, Interval};
use engeom::geom2::{directed_angle, signed_angle, Vector2};
use serde_json::{json, Value};
use std::f64::consts::{PI, TAU};

const N: f64 = 16.0;
const U: f64 = 1048576.0;

/// lattice angle k*TAU/16 shifted by e ulps; `x` (optional) is an exact float multiplier path
fn ang(k: i64, e: i64) -> f64 {
    nudge(k as f64 / N * TAU, e)
}
fn qa(q: &mut Q, r: f64) -> i64 {
    q.q(r / TAU * N, U)
}
fn code(v: i64) -> f64 {
    match v {
        -3 => f64::NEG_INFINITY,
        3 => f64::INFINITY,
        x => x as f64,
    }
}
fn uncode(q: &mut Q, v: f64) -> i64 {
    if v == f64::INFINITY {
        3
    } else if v == f64::NEG_INFINITY {
        -3
    } else if v.is_nan() {
        q.finite = false;
        0
    } else {
        // exact small integers only; anything else is projected to a sentinel
        if v == v.round() && v.abs() < 3.0 {
            v as i64
        } else {
            99
        }
    }
}

pub fn exec(rec: &Value, _st: &mut State) -> Value {
    let op = gs(rec, "op");
    let mut q = Q::new();
    match op {
        "norm" => {
            // raw float path for big angles: a = (k + 16*turns)/16 * TAU
            let a = if rec.get("rm").is_some() { gi(rec, "rm") as f64 * (2.0f64).powi(gi(rec, "re") as i32) } else { ang(gi(rec, "k"), gi(rec, "e")) };
            let s = angle_signed_pi(a);
            let u = angle_to_2pi(a);
            let o = json!({
                "sq": qa(&mut q, s), "slo": cmp3(s, -PI), "shi": cmp3(s, PI), "ss": q.q(s.sin(), U), "sc": q.q(s.cos(), U),
                "uq": qa(&mut q, u), "ulo": cmp3(u, 0.0), "uhi": cmp3(u, TAU), "us": q.q(u.sin(), U), "uc": q.q(u.cos(), U),
                "is": q.q(a.sin(), U), "ic": q.q(a.cos(), U),
                "finite": q.finite });
            o
        }
        "dirpair" => {
            let a0 = ang(gi(rec, "k0"), gi(rec, "e0"));
            let a1 = ang(gi(rec, "k1"), gi(rec, "e1"));
            let ccw = angle_in_direction(a0, a1, AngleDir::Ccw);
            let cw = angle_in_direction(a0, a1, AngleDir::Cw);
            json!({
                "ccw": qa(&mut q, ccw), "cw": qa(&mut q, cw),
                "ccw_lo": cmp3(ccw, 0.0), "ccw_hi": cmp3(ccw, TAU), "cw_lo": cmp3(cw, 0.0), "cw_hi": cmp3(cw, TAU),
                "finite": q.finite })
        }
        "vec" => {
            let v1 = gvi(rec, "v1");
            let v2 = gvi(rec, "v2");
            // optional power-of-two lengths of the two vectors: the angle between them does not depend on their lengths
            let (s1, s2) = ((2.0f64).powi(gi_or(rec, "sc1", 0) as i32), (2.0f64).powi(gi_or(rec, "sc2", 0) as i32));
            let a = Vector2::new(v1[0] as f64 * s1, v1[1] as f64 * s1);
            let b = Vector2::new(v2[0] as f64 * s2, v2[1] as f64 * s2);
            let s = signed_angle(&a, &b);
            let ccw = directed_angle(&a, &b, AngleDir::Ccw);
            let cw = directed_angle(&a, &b, AngleDir::Cw);
            json!({
                "s_sin": q.q(s.sin(), U), "s_cos": q.q(s.cos(), U), "slo": cmp3(s, -PI), "shi": cmp3(s, PI), "sq": qa(&mut q, s),
                "ccw": qa(&mut q, ccw), "cw": qa(&mut q, cw),
                "ccw_sin": q.q(ccw.sin(), U), "ccw_cos": q.q(ccw.cos(), U),
                "cw_sin": q.q(cw.sin(), U), "cw_cos": q.q(cw.cos(), U),
                "ccw_lo": cmp3(ccw, 0.0), "ccw_hi": cmp3(ccw, TAU), "cw_lo": cmp3(cw, 0.0), "cw_hi": cmp3(cw, TAU),
                "finite": q.finite })
        }
        "aint" => {
            // AngleInterval::new(start, extent).contains(t) for a list of test angles
            let iv = AngleInterval::new(ang(gi(rec, "s"), 0), ang(gi(rec, "x"), 0));
            let ts = gvvi(rec, "ts");
            let c: Vec<bool> = ts.iter().map(|t| iv.contains(ang(t[0], t[1]))).collect();
            json!({"c": c, "start": qa(&mut q, iv.start()), "angle": qa(&mut q, iv.angle()), "finite": q.finite})
        }
        "aint2" => {
            let iv = AngleInterval::new(ang(gi(rec, "s"), 0), ang(gi(rec, "x"), 0));
            let others = gvvi(rec, "others");
            let c: Vec<bool> = others.iter().map(|o| iv.intersects(&AngleInterval::new(ang(o[0], 0), ang(o[1], 0)))).collect();
            let r: Vec<bool> = others.iter().map(|o| AngleInterval::new(ang(o[0], 0), ang(o[1], 0)).intersects(&iv)).collect();
            json!({"c": c, "r": r, "finite": true})
        }
        "sint" => {
            let a = code(gi(rec, "a"));
            let b = code(gi(rec, "b"));
            let iv = Interval::new(a, b);
            let tv = Interval::try_new(a, b);
            let xs = gvi(rec, "xs");
            let others = gvvi(rec, "others");
            let contains: Vec<bool> = xs.iter().map(|x| iv.contains(code(*x))).collect();
            let clamp: Vec<i64> = xs.iter().map(|x| { let c = iv.clamp(code(*x)); uncode(&mut q, c) }).collect();
            let mut ov = vec![];
            let mut ci = vec![];
            let mut inter = vec![];
            for o in &others {
                let oi = Interval::new(code(o[0]), code(o[1]));
                ov.push(iv.overlaps(&oi));
                ci.push(iv.contains_interval(&oi));
                inter.push(match iv.intersection(&oi) {
                    None => json!({"some": false, "min": 0, "max": 0}),
                    Some(r) => json!({"some": true, "min": uncode(&mut q, r.min), "max": uncode(&mut q, r.max)}),
                });
            }
            let (tmin, tmax) = match &tv { Ok(t) => (uncode(&mut q, t.min), uncode(&mut q, t.max)), Err(_) => (0, 0) };
            json!({"min": uncode(&mut q, iv.min), "max": uncode(&mut q, iv.max), "try_ok": tv.is_ok(), "tmin": tmin, "tmax": tmax,
                   "contains": contains, "clamp": clamp, "overlaps": ov, "contains_iv": ci, "inter": inter, "finite": q.finite})
        }
        "sint_nan" => {
            // NaN bounds must be rejected by try_new (and new must panic -> separate op)
            let which = gi(rec, "which");
            let (a, b) = match which { 0 => (f64::NAN, 1.0), 1 => (1.0, f64::NAN), _ => (f64::NAN, f64::NAN) };
            json!({"try_ok": Interval::try_new(a, b).is_ok()})
        }
        _ => json!({"unknown_op": true}),
    }
}
