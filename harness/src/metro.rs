//! C16 executor: tolerance maps, directed distances, deviations from curves and meshes,
//! SurfaceDeviationSet and PointCloud histories.  Builds inputs from exact integers, calls engeom and
//! projects the results to integers.  No judging here.
use crate::curve::{build2, scale_of};
use crate::util::*;
use crate::State;
use engeom::common::{DiscreteDomain, DistMode};
use engeom::geom2::{Point2, SurfacePoint2, UnitVec2, Vector2};
use engeom::geom3::{Iso3, Mesh, Point3, PointCloud, PointCloudFeatures, SurfacePoint3, UnitVec3, Vector3};
use engeom::metrology::line_profiles::{line_surface_deviations, point_curve2_deviation};
use engeom::metrology::{
    DiscreteDomainTolMap, Distance2, Distance3, Measurement, SurfaceDeviation2, SurfaceDeviationSet2, Tolerance, ToleranceMap,
};
use parry3d_f64::na::{Translation3, UnitQuaternion};
use serde_json::{json, Value};

const QV: f64 = 4096.0; // values
const Q2: f64 = 1024.0; // squared values
const QPD: f64 = 4096.0; // 2D points
const QM: f64 = 256.0; // mesh reference points
const QD: f64 = 16384.0; // unit directions
const QS: f64 = 16.0; // deviation-set values
const QC: f64 = 1024.0; // cloud coordinates

fn v3(v: &[i64]) -> Vector3 {
    Vector3::new(v[0] as f64, v[1] as f64, v[2] as f64)
}

/// projection of one 2D deviation; `k` converts library units to doubled lattice units
fn proj_dev(q: &mut Q, d: &SurfaceDeviation2, k: f64) -> Value {
    let act = d.actual_point();
    let v = d.deviation * k;
    json!({"sp": [q.q(d.surface.point.x * k, QPD), q.q(d.surface.point.y * k, QPD), 0],
           "n": [q.q(d.surface.normal.x, QD), q.q(d.surface.normal.y, QD), 0],
           "val": q.q(v, QV), "v2": q.q(v * v, Q2), "sg": cmp3(d.deviation, 0.0),
           "act": [q.q(act.x * k, QPD), q.q(act.y * k, QPD), 0]})
}

fn proj_cloud(c: &Option<PointCloud>) -> Value {
    let mut q = Q::new();
    match c {
        None => json!({"live": false, "len": 0, "empty": true, "p": [], "hn": false, "nrm": [], "hc": false, "col": [], "finite": true}),
        Some(c) => {
            let p: Vec<Vec<i64>> = c.points().iter().map(|p| vec![q.q(p.x, QC), q.q(p.y, QC), q.q(p.z, QC)]).collect();
            let nrm: Vec<Vec<i64>> = c.normals().map(|n| n.iter().map(|v| vec![q.q(v.x, QC), q.q(v.y, QC), q.q(v.z, QC)]).collect()).unwrap_or_default();
            let col: Vec<Vec<i64>> = c.colors().map(|n| n.iter().map(|v| vec![v[0] as i64, v[1] as i64, v[2] as i64]).collect()).unwrap_or_default();
            json!({"live": true, "len": c.len(), "empty": c.is_empty(), "p": p, "hn": c.normals().is_some(), "nrm": nrm,
                   "hc": c.colors().is_some(), "col": col, "finite": q.finite})
        }
    }
}

fn cloud_parts(rec: &Value) -> (Vec<Point3>, Option<Vec<UnitVec3>>, Option<Vec<[u8; 3]>>) {
    let p: Vec<Point3> = gvvi(rec, "p").iter().map(|v| Point3::from(v3(v))).collect();
    let n = if gb(rec, "hn") { Some(gvvi(rec, "n").iter().map(|v| UnitVec3::new_normalize(v3(v))).collect()) } else { None };
    let c = if gb(rec, "hc") { Some(gvvi(rec, "c").iter().map(|v| [v[0] as u8, v[1] as u8, v[2] as u8]).collect()) } else { None };
    (p, n, c)
}

fn proj_set(set: &SurfaceDeviationSet2, s: f64) -> Value {
    let mut q = Q::new();
    let vals: Vec<i64> = set.iter().map(|d| q.q(d.deviation / s, QS)).collect();
    let tags: Vec<i64> = set.iter().map(|d| q.q(d.surface.point.x, 1.0)).collect();
    let ext = |q: &mut Q, d: Option<&SurfaceDeviation2>| match d {
        None => json!({"some": false, "val": 0, "tag": 0}),
        Some(d) => json!({"some": true, "val": q.q(d.deviation / s, QS), "tag": q.q(d.surface.point.x, 1.0)}),
    };
    let mx = ext(&mut q, set.max());
    let mn = ext(&mut q, set.min());
    json!({"len": set.len(), "vals": vals, "tags": tags, "max": mx, "min": mn,
           "zone": q.q(set.symmetrical_zone_size() / s, QS), "finite": q.finite})
}

pub fn exec(rec: &Value, st: &mut State) -> Value {
    let op = gs(rec, "op");
    let mut q = Q::new();
    match op {
        // ------------------------------------------------------------ tolerance map
        "tolmap" => {
            let s = scale_of(rec);
            let bps = gvi(rec, "bps");
            // `pushes`: the table is built incrementally - every value is offered to DiscreteDomain::push in turn and the
            // accept / reject answers are recorded; otherwise the table is handed to try_from as a whole
            let mut acc: Vec<bool> = vec![];
            let dom = if rec.get("pushes").is_some() {
                let mut d = DiscreteDomain::default();
                for v in gvi(rec, "pushes") { acc.push(d.push(v as f64 * s).is_ok()); }
                d
            } else {
                match DiscreteDomain::try_from(bps.iter().map(|b| *b as f64 * s).collect::<Vec<f64>>()) {
                    Ok(d) => d,
                    Err(_) => return json!({"ok": false, "z": []}),
                }
            };
            let table: Vec<i64> = dom.values().iter().map(|v| q.q(*v / s, 1.0)).collect();
            let zones: Vec<Tolerance> = (1..=dom.len()).map(|k| Tolerance::new_unchecked(-(k as f64), k as f64)).collect();
            let map = match DiscreteDomainTolMap::try_new(dom, zones) {
                Ok(m) => m,
                Err(_) => return json!({"ok": false, "z": []}),
            };
            let z: Vec<i64> = gvvi(rec, "xs")
                .iter()
                .map(|x| {
                    let xv = nudge(x[0] as f64 / 2.0 * s, x[1]);
                    match map.get(xv) {
                        None => 0,
                        // zone k was built as [-k, k]: recover k (anything else is reported as 99)
                        Some(t) => if t.upper == t.upper.round() && t.lower == -t.upper && t.upper >= 1.0 && t.upper < 90.0 { t.upper as i64 } else { 99 },
                    }
                })
                .collect();
            json!({"ok": true, "z": z, "acc": acc, "table": table})
        }
        // ------------------------------------------------------------ directed distance
        "dist" => {
            let s = scale_of(rec);
            let (a, b, dir, h) = (gvi(rec, "a"), gvi(rec, "b"), gvi(rec, "dir"), gi(rec, "h"));
            if gi(rec, "dim") == 2 {
                let d = Distance2::new(
                    Point2::new(a[0] as f64 * s, a[1] as f64 * s),
                    Point2::new(b[0] as f64 * s, b[1] as f64 * s),
                    if h > 0 { Some(UnitVec2::new_normalize(Vector2::new(dir[0] as f64, dir[1] as f64))) } else { None },
                );
                let r = d.reversed();
                let c = d.center();
                let v = d.value() / s;
                json!({"val": q.q(v, QV), "v2": q.q(v * v, Q2), "dir": [q.q(d.direction.x, QD), q.q(d.direction.y, QD), 0],
                       "rval": q.q(r.value() / s, QV), "ra": [q.q(r.a.x / s, QPD), q.q(r.a.y / s, QPD), 0],
                       "rb": [q.q(r.b.x / s, QPD), q.q(r.b.y / s, QPD), 0], "rdir": [q.q(r.direction.x, QD), q.q(r.direction.y, QD), 0],
                       "cpt": [q.q(c.point.x / s, QPD), q.q(c.point.y / s, QPD), 0], "cn": [q.q(c.normal.x, QD), q.q(c.normal.y, QD), 0],
                       "finite": q.finite})
            } else {
                let d = Distance3::new(
                    Point3::from(v3(&a) * s),
                    Point3::from(v3(&b) * s),
                    if h > 0 { Some(UnitVec3::new_normalize(v3(&dir))) } else { None },
                );
                let r = d.reversed();
                let c = d.center();
                let v = d.value() / s;
                json!({"val": q.q(v, QV), "v2": q.q(v * v, Q2), "dir": [q.q(d.direction.x, QD), q.q(d.direction.y, QD), q.q(d.direction.z, QD)],
                       "rval": q.q(r.value() / s, QV), "ra": [q.q(r.a.x / s, QPD), q.q(r.a.y / s, QPD), q.q(r.a.z / s, QPD)],
                       "rb": [q.q(r.b.x / s, QPD), q.q(r.b.y / s, QPD), q.q(r.b.z / s, QPD)],
                       "rdir": [q.q(r.direction.x, QD), q.q(r.direction.y, QD), q.q(r.direction.z, QD)],
                       "cpt": [q.q(c.point.x / s, QPD), q.q(c.point.y / s, QPD), q.q(c.point.z / s, QPD)],
                       "cn": [q.q(c.normal.x, QD), q.q(c.normal.y, QD), q.q(c.normal.z, QD)],
                       "finite": q.finite})
            }
        }
        // ------------------------------------------------------------ deviation from a curve
        "cdev" => {
            let (s, c) = build2(rec);
            let c = match c { Ok(c) => c, Err(_) => return json!({"ok": false}) };
            let k = 2.0 / s;
            let pts: Vec<Point2> = gvvi(rec, "qs").iter().map(|v| Point2::new(v[0] as f64 / 2.0 * s, v[1] as f64 / 2.0 * s)).collect();
            let ind: Vec<Value> = pts.iter().map(|p| {
                let stn = c.at_closest_to_point(p);
                proj_dev(&mut q, &point_curve2_deviation(&stn, p), k)
            }).collect();
            let set = line_surface_deviations(&c, &pts, None);
            let items: Vec<Value> = set.iter().map(|d| proj_dev(&mut q, d, k)).collect();
            let ext = |q: &mut Q, d: Option<&SurfaceDeviation2>| match d {
                None => json!({"some": false, "val": 0}),
                Some(d) => json!({"some": true, "val": q.q(d.deviation * k, QV)}),
            };
            let mx = ext(&mut q, set.max());
            let mn = ext(&mut q, set.min());
            json!({"ok": true, "closed": c.is_closed(), "ind": ind,
                   "set": {"len": set.len(), "items": items, "max": mx, "min": mn, "zone": q.q(set.symmetrical_zone_size() * k, QV)},
                   "finite": q.finite})
        }
        // ------------------------------------------------------------ deviation from a mesh
        "mdev" => {
            let s = scale_of(rec);
            let k = 2.0 / s;
            let verts: Vec<Point3> = gvvi(rec, "vp").iter().map(|v| Point3::from(v3(v) * s)).collect();
            let faces: Vec<[u32; 3]> = gvvi(rec, "fs").iter().map(|f| [f[0] as u32, f[1] as u32, f[2] as u32]).collect();
            let mesh = Mesh::new(verts, faces, false);
            let mut run = |to_plane: bool| -> Vec<Value> {
                gvvi(rec, "qs").iter().map(|v| {
                    let p = Point3::from(v3(v) * (s / 2.0));
                    let d = mesh.measure_point_deviation(&p, if to_plane { DistMode::ToPlane } else { DistMode::ToPoint });
                    let val = d.value() * k;
                    let ba = (d.b - d.a) * k;
                    let rec_pt = d.a + d.direction.into_inner() * d.value();
                    json!({"a": [q.q(d.a.x * k, QM), q.q(d.a.y * k, QM), q.q(d.a.z * k, QM)],
                           "bq": [q.q(d.b.x * k, QM), q.q(d.b.y * k, QM), q.q(d.b.z * k, QM)],
                           "da2": q.q(ba.norm_squared(), Q2), "val": q.q(val, QV), "v2": q.q(val * val, Q2), "sg": cmp3(d.value(), 0.0),
                           "dir": [q.q(d.direction.x, QD), q.q(d.direction.y, QD), q.q(d.direction.z, QD)],
                           "rec": [q.q(rec_pt.x * k, QM), q.q(rec_pt.y * k, QM), q.q(rec_pt.z * k, QM)]})
                }).collect()
            };
            let pt = run(false);
            let pl = run(true);
            json!({"ok": true, "pt": pt, "pl": pl, "finite": q.finite})
        }
        // ------------------------------------------------------------ SurfaceDeviationSet history
        "ddefault" | "dnew" | "dpush" => {
            let s = scale_of(rec);
            let mk = |tag: usize, v: i64| SurfaceDeviation2::new(SurfacePoint2::new_normalize(Point2::new(tag as f64, 0.0), Vector2::new(0.0, 1.0)), v as f64 * s);
            match op {
                "ddefault" => {
                    st.slots.insert("dev".into(), Box::new(SurfaceDeviationSet2::default()));
                }
                "dnew" => {
                    let items: Vec<SurfaceDeviation2> = gvi(rec, "vs").iter().enumerate().map(|(k, v)| mk(k + 1, *v)).collect();
                    st.slots.insert("dev".into(), Box::new(SurfaceDeviationSet2::new(items)));
                }
                _ => {
                    let set = match st.slots.get_mut("dev").and_then(|b| b.downcast_mut::<SurfaceDeviationSet2>()) {
                        Some(x) => x,
                        None => return json!({"no_state": true}),
                    };
                    let d = mk(set.len() + 1, gi(rec, "x"));
                    if gb(rec, "pn") { set.push_new(d.surface, d.deviation) } else { set.push(d) }
                }
            }
            let set = st.slots.get("dev").and_then(|b| b.downcast_ref::<SurfaceDeviationSet2>()).unwrap();
            proj_set(set, s)
        }
        // ------------------------------------------------------------ PointCloud history
        "pnew" | "pempty" | "pappend" | "pmerge" | "pselect" | "ptransform" => {
            let mut cur: Option<PointCloud> = st.slots.remove("pc").and_then(|b| b.downcast::<PointCloud>().ok()).map(|b| *b);
            let mut ok = true;
            match op {
                "pnew" => {
                    let (p, n, c) = cloud_parts(rec);
                    let via = rec.get("via").and_then(|v| v.as_str()).unwrap_or("try_new");
                    let r = match via {
                        "from_p" => Ok(PointCloud::from(p.as_slice())),
                        "from_pn" => PointCloud::try_from((p.as_slice(), n.clone().unwrap_or_default().as_slice())),
                        "from_sp" => {
                            let sp: Vec<SurfacePoint3> = p.iter().zip(n.clone().unwrap_or_default().iter()).map(|(a, b)| SurfacePoint3::new(*a, *b)).collect();
                            Ok(PointCloud::from(sp.as_slice()))
                        }
                        _ => PointCloud::try_new(p, n, c),
                    };
                    match r { Ok(c) => cur = Some(c), Err(_) => ok = false }
                }
                "pempty" => cur = Some(PointCloud::empty(gb(rec, "hn"), gb(rec, "hc"))),
                _ => {
                    let c = match cur.as_mut() { Some(c) => c, None => return json!({"no_state": true}) };
                    match op {
                        "pappend" => {
                            let p = Point3::from(v3(&gvi(rec, "p")));
                            let n = if gb(rec, "hn") { Some(UnitVec3::new_normalize(v3(&gvi(rec, "n")))) } else { None };
                            let col = if gb(rec, "hc") { let v = gvi(rec, "c"); Some([v[0] as u8, v[1] as u8, v[2] as u8]) } else { None };
                            ok = c.append(p, n, col).is_ok();
                        }
                        "pmerge" => {
                            let (p, n, col) = cloud_parts(rec);
                            let other = PointCloud::try_new(p, n, col).expect("generator: other cloud must be valid");
                            ok = c.merge(other).is_ok();
                        }
                        "pselect" => {
                            let idx: Vec<usize> = gvi(rec, "idx").iter().map(|v| *v as usize).collect();
                            let sel = c.create_from_indices(&idx);
                            cur = Some(sel);
                        }
                        _ => {
                            let t = gvi(rec, "t");
                            let iso = Iso3::from_parts(
                                Translation3::new(t[0] as f64, t[1] as f64, t[2] as f64),
                                UnitQuaternion::from_axis_angle(&Vector3::z_axis(), gi(rec, "k") as f64 * std::f64::consts::FRAC_PI_2),
                            );
                            c.transform(&iso);
                        }
                    }
                }
            }
            let mut o = proj_cloud(&cur);
            o["ok"] = json!(ok);
            if let Some(c) = cur {
                st.slots.insert("pc".into(), Box::new(c));
            }
            o
        }
        _ => json!({"unknown_op": true}),
    }
}
