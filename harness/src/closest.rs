//! C02: closest-point / distance queries on curves and meshes (projection only, no expected values)
use crate::curve::{build2, build3};
use crate::util::*;
use crate::State;
use engeom::geom3::{Iso3, Mesh, Point3, Vector3};
use engeom::geom2::Point2;
use serde_json::{json, Value};

const QPC: f64 = 2048.0; // per doubled lattice unit
const QFC: f64 = 4096.0;
const QD: f64 = 16384.0;

/// exact-ish isometries used for the `transform` argument: index -> Iso3 (in lattice units)
pub fn iso_table(k: i64, s: f64) -> Option<Iso3> {
    match k {
        0 => None,
        1 => Some(Iso3::translation(1.0 * s, 2.0 * s, -1.0 * s)),
        _ => Some(Iso3::new(Vector3::new(-1.0 * s, 0.0, 2.0 * s), Vector3::z() * std::f64::consts::FRAC_PI_2)),
    }
}

pub fn exec(rec: &Value, _st: &mut State) -> Value {
    let op = gs(rec, "op");
    let mut q = Q::new();
    match op {
        "curve" => {
            let dim = gi(rec, "dim");
            let qs = gvvi(rec, "qs");
            let mut outs = vec![];
            // tf > 0: the curve that is queried is DERIVED from the built one by transformed_by (translation / quarter turn
            // plus translation); queries are moved along and the answers moved back, so the judge sees the same scene
            let tfk = gi_or(rec, "tf", 0);
            const QDIR: f64 = 16384.0;
            if dim == 2 {
                let (s, c) = build2(rec);
                let c = c.expect("curve");
                let t = match tfk { 0 => engeom::geom2::Iso2::identity(), 1 => engeom::geom2::Iso2::translation(1.0 * s, -2.0 * s),
                                    _ => engeom::geom2::Iso2::new(engeom::geom2::Vector2::new(-1.0 * s, 2.0 * s), std::f64::consts::FRAC_PI_2) };
                let c = if tfk == 0 { c } else { c.transformed_by(&t) };
                let ti = t.inverse();
                for qq in &qs {
                    let p = t * Point2::new(qq[0] as f64 / 2.0 * s, qq[1] as f64 / 2.0 * s);
                    let st = c.at_closest_to_point(&p);
                    let d = c.dist_to_point(&p);
                    let spm = st.point();
                    let sp = ti * spm;
                    let dir = ti * st.direction().into_inner();
                    let dd = 2.0 * d / s;
                    let mut qd = Q::new();
                    outs.push(json!({"idx": st.index(), "fq": q.q(st.fraction(), QFC),
                        "p": [q.q(2.0 * sp.x / s, QPC), q.q(2.0 * sp.y / s, QPC), 0],
                        "d": [qd.q(dir.x, QDIR), qd.q(dir.y, QDIR), 0], "dfin": qd.finite,
                        "dq2": q.q(dd * dd, 64.0), "dres": q.q((d - (p - spm).norm()) / s, 1048576.0)}));
                }
            } else {
                let (s, c) = build3(rec);
                let c = c.expect("curve");
                let t = iso_table(tfk, s).unwrap_or(Iso3::identity());
                let c = if tfk == 0 { c } else { c.transformed_by(&t) };
                let ti = t.inverse();
                for qq in &qs {
                    let p = t * Point3::new(qq[0] as f64 / 2.0 * s, qq[1] as f64 / 2.0 * s, qq[2] as f64 / 2.0 * s);
                    let st = c.at_closest_to_point(&p);
                    let d = c.dist_to_point(&p);
                    let spm = st.point();
                    let sp = ti * spm;
                    let dir = ti * st.direction().into_inner();
                    let dd = 2.0 * d / s;
                    let mut qd = Q::new();
                    outs.push(json!({"idx": st.index(), "fq": q.q(st.fraction(), QFC),
                        "p": [q.q(2.0 * sp.x / s, QPC), q.q(2.0 * sp.y / s, QPC), q.q(2.0 * sp.z / s, QPC)],
                        "d": [qd.q(dir.x, QDIR), qd.q(dir.y, QDIR), qd.q(dir.z, QDIR)], "dfin": qd.finite,
                        "dq2": q.q(dd * dd, 64.0), "dres": q.q((d - (p - spm).norm()) / s, 1048576.0)}));
                }
            }
            json!({"q": outs, "finite": q.finite})
        }
        "mesh" => {
            let s = (2.0f64).powi(gi_or(rec, "sc", 0) as i32);
            let verts: Vec<Point3> = gvvi(rec, "vpos").iter().map(|p| Point3::new(p[0] as f64 * s, p[1] as f64 * s, p[2] as f64 * s)).collect();
            let faces: Vec<[u32; 3]> = gvvi(rec, "faces").iter().map(|f| [f[0] as u32, f[1] as u32, f[2] as u32]).collect();
            let mesh = Mesh::new(verts, faces, false);
            let tf = iso_table(gi_or(rec, "tf", 0), s);
            let caps = gvi(rec, "caps");
            let angles = gvi(rec, "angles");
            let qs = gvvi(rec, "qs");
            let mut outs = vec![];
            // the query handed to the library is T^-1 q when a transform T is passed along (so that T * point = q)
            let inv = tf.map(|t| t.inverse());
            let mut all_pts = vec![];
            for qq in &qs {
                let p = Point3::new(qq[0] as f64 / 2.0 * s, qq[1] as f64 / 2.0 * s, qq[2] as f64 / 2.0 * s);
                let sp = mesh.surf_closest_to(&p);
                let pc = mesh.point_closest_to(&p);
                let d2q = |q: &mut Q, x: &Point3| { let d = 2.0 * (p - x).norm() / s; q.q(d * d, 64.0) };
                let pr = match mesh.project_with_max_dist(&p, 1.0e9) {
                    Some((prj, id, loc)) => {
                        let b = loc.barycentric_coordinates().unwrap_or([f64::NAN; 3]);
                        json!({"some": true, "fid": id, "bc": [q.q(b[0], QFC), q.q(b[1], QFC), q.q(b[2], QFC)],
                               "p": [q.q(2.0 * prj.point.x / s, QPC), q.q(2.0 * prj.point.y / s, QPC), q.q(2.0 * prj.point.z / s, QPC)],
                               "dq2": d2q(&mut q, &prj.point)})
                    }
                    None => json!({"some": false, "fid": 0, "bc": [0, 0, 0], "p": [0, 0, 0], "dq2": 0}),
                };
                let capped: Vec<Value> = caps.iter().map(|c4| {
                    let r = *c4 as f64 / 4.0 * s;
                    match mesh.project_with_max_dist(&p, r) {
                        None => json!({"some": false, "fid": 0, "dq2": 0}),
                        Some((prj, id, _)) => json!({"some": true, "fid": id, "dq2": d2q(&mut q, &prj.point)}),
                    }
                }).collect();
                let handed = match &inv { Some(i) => i * p, None => p };
                all_pts.push(handed);
                let tol: Vec<Vec<bool>> = caps.iter().map(|c4| {
                    let r = *c4 as f64 / 4.0 * s;
                    angles.iter().map(|a| mesh.project_with_tol(&handed, r, (*a as f64).to_radians(), tf.as_ref()).is_some()).collect()
                }).collect();
                let dev = {
                    use engeom::metrology::Measurement;
                    let dv = mesh.measure_point_deviation(&p, engeom::common::DistMode::ToPoint);
                    let v = 2.0 * dv.value() / s;
                    // ToPlane: the value is a projection, but the reference point is still the closest point of the mesh
                    let dp = mesh.measure_point_deviation(&p, engeom::common::DistMode::ToPlane);
                    let mut qd = Q::new();
                    json!({"dq2": q.q(v * v, 64.0), "a": d2q(&mut q, &dv.a), "apl": d2q(&mut q, &dp.a),
                           "npl": [qd.q(dp.direction.x, QD), qd.q(dp.direction.y, QD), qd.q(dp.direction.z, QD)], "nplfin": qd.finite})
                };
                let mut qn = Q::new();
                outs.push(json!({
                    "sp": {"p": [q.q(2.0 * sp.point.x / s, QPC), q.q(2.0 * sp.point.y / s, QPC), q.q(2.0 * sp.point.z / s, QPC)],
                           "n": [qn.q(sp.normal.x, QD), qn.q(sp.normal.y, QD), qn.q(sp.normal.z, QD)], "nfin": qn.finite,
                           "dq2": d2q(&mut q, &sp.point)},
                    "pc": {"dq2": d2q(&mut q, &pc)},
                    "dev": dev,
                    "pr": pr, "capped": capped, "tol": tol}));
            }
            // indices_in_tol for the first cap / every angle
            let r0 = caps[0] as f64 / 4.0 * s;
            let in_tol: Vec<Vec<usize>> = angles.iter().map(|a| mesh.indices_in_tol(&all_pts, r0, (*a as f64).to_radians(), tf.as_ref())).collect();
            json!({"q": outs, "in_tol": in_tol, "finite": q.finite})
        }
        _ => json!({"unknown_op": true}),
    }
}
